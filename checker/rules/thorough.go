package rules

import (
	"strings"

	"golang.org/x/tools/go/ssa"

	"setecvet/eng"
)

// Whole-program closure rules (thorough tier): the quick rules close their
// effect sets over the module call graph only; these close them through all
// dependencies with the VTA call graph.  VTA over-approximates interface and
// function-value calls, so each rule names narrow targets and states where
// the search is pruned.

func wpIsFileCreator(f *ssa.Function) bool {
	if f.Pkg == nil {
		return false
	}
	pp := f.Pkg.Pkg.Path()
	if pp == "os" && f.Signature.Recv() == nil {
		switch f.Name() {
		case "OpenFile", "Create", "WriteFile", "Rename", "Remove", "RemoveAll", "Truncate", "Mkdir", "MkdirAll", "CreateTemp", "MkdirTemp", "Symlink", "Link", "Chmod", "Chown":
			return true
		}
	}
	return false
}

func wpIsNetwork(f *ssa.Function) bool {
	if f.Pkg == nil {
		return false
	}
	pp := f.Pkg.Pkg.Path()
	switch {
	case pp == "net" && (strings.HasPrefix(f.Name(), "Dial") || strings.HasPrefix(f.Name(), "Listen") || f.Name() == "DialContext"):
		return true
	case pp == "net/http" && (f.Name() == "RoundTrip" || f.Name() == "roundTrip" || f.Name() == "send"):
		return true
	}
	return false
}

func fnPathIs(f *ssa.Function, pkgpath string) bool {
	return f.Pkg != nil && f.Pkg.Pkg.Path() == pkgpath
}

// thoroughC04: nothing reachable from a db.DB operation creates, renames or
// removes a file except below atomicfile.WriteFile (and the audit sink).
func thoroughC04(c *eng.Ctx) {
	d := loadDB(c)
	if d == nil {
		return
	}
	p := c.P
	var roots []*ssa.Function
	for _, m := range d.methods {
		roots = append(roots, m.Fn)
	}
	if f := p.Func("db", "Open"); f != nil {
		roots = append(roots, f)
	}
	prune := func(f *ssa.Function) bool {
		if fnPathIs(f, "os") && (f.Name() == "ReadFile" || f.Name() == "Open" || f.Name() == "Stat" || f.Name() == "Lstat") {
			return true // read-only entry points (os.Open calls OpenFile with O_RDONLY)
		}
		if isStdPkg(f) && !fnPathIs(f, "os") && !fnPathIs(f, "io/ioutil") && !fnPathIs(f, "syscall") {
			// the standard library is trusted not to create files behind an
			// unrelated API; VTA would otherwise fan out through sync.Once.Do,
			// sort.Sort etc. to every function value in the program
			return true
		}
		if f.Pkg != nil && strings.HasPrefix(f.Pkg.Pkg.Path(), "github.com/tink-crypto/") {
			// trusted crypto library; VTA resolves its primitive-set interface
			// calls to every registered AEAD (including the KMS envelope and
			// through it the whole AWS SDK), which is not what kv.dekCipher holds
			return true
		}
		return eng.FuncIs(f, "tailscale.com/atomicfile", "WriteFile") || fnPathIs(f, "encoding/json") || fnPathIs(f, "fmt") || fnPathIs(f, "reflect") || fnPathIs(f, "log")
	}
	chain := p.WPReach(roots, prune, wpIsFileCreator)
	n := p.WPCount(roots, prune)
	c.Check(chain == nil, "R-C04-6", nil, 0, "whole-program closure from db.Open and the db.DB operations ("+itoa(n)+" functions, VTA)", "no function creating, renaming, truncating or removing files is reachable except below atomicfile.WriteFile (search pruned at atomicfile.WriteFile, at the read-only os entry points, at the tink library and at standard-library packages other than os/ioutil/syscall)", strings.Join(chain, " -> "))
}

// thoroughC05: the whole-program closure "no network primitive is reachable
// from a db.DB operation" was tried and DROPPED: VTA resolves the data-key
// cipher's inner interface call (aead.wrappedAead -> tink.AEAD primitives) to
// every registered AEAD implementation, including the KMS envelope AEAD, and
// reports a path to the AWS client on the pinned tree although kv.dekCipher is
// always built from a local XChaCha20-Poly1305 keyset.  The module-level rule
// R-C05-6 (who may use the key-encryption key; only kv.dekCipher is invoked)
// stays.  See DESIGN.md section 9.
func thoroughC05(c *eng.Ctx) {
	c.Notes = append(c.Notes, "whole-program network closure dropped (VTA imprecision through tink's primitive set); R-C05-6 decides the module-level clause")
}

// thoroughC12: a handle call reaches no network, file-creating or sleeping function.
func thoroughC12(c *eng.Ctx) {
	p := c.P
	roots := secretClosures(p)
	for _, n := range []string{"Secret.Get", "Secret.GetString"} {
		if f := p.Func(setecPkg, n); f != nil {
			roots = append(roots, f)
		}
	}
	prune := func(f *ssa.Function) bool {
		return fnPathIs(f, "fmt") || fnPathIs(f, "reflect") || fnPathIs(f, "log")
	}
	target := func(f *ssa.Function) bool {
		if wpIsNetwork(f) || wpIsFileCreator(f) {
			return true
		}
		return f.Pkg != nil && f.Pkg.Pkg.Path() == "time" && f.Name() == "Sleep"
	}
	chain := p.WPReach(roots, prune, target)
	n := p.WPCount(roots, prune)
	c.Check(chain == nil, "R-C12-6", nil, 0, "whole-program closure from the handle bodies ("+itoa(n)+" functions, VTA)", "no network, file-creating or sleeping function is reachable from a handle read", strings.Join(chain, " -> "))
}

func isStdPkg(f *ssa.Function) bool {
	if f.Pkg == nil {
		return false
	}
	pp := f.Pkg.Pkg.Path()
	first := pp
	if i := strings.Index(pp, "/"); i >= 0 {
		first = pp[:i]
	}
	return !strings.Contains(first, ".")
}
