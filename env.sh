# source this: offline Go environment for /verif
export PATH=/opt/veriftools/go1.26.8/bin:$PATH
export GOFLAGS=-mod=mod GOPROXY=off GOSUMDB=off GOTOOLCHAIN=local
unset GOWORK
