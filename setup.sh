#!/bin/bash
# Builds the checker offline from /verif/checker (module cache only).
cd "$(dirname "$0")" || exit 2
. ./env.sh
mkdir -p bin evidence out
cd checker && go build -o ../bin/setecvet . 
